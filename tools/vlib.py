#!/usr/bin/env python3
"""Shared machinery for the /verif checks: TLC wrapper, trace validation, cached C++ harness
builds from /repo's current working tree, crash-resilient batch runner, edge-cover behaviour
generator, evidence writer and known-findings matching.  See DESIGN.md section 3."""
import collections, hashlib, json, os, random, re, shutil, subprocess, sys, tempfile, time

VERIF = os.path.dirname(os.path.dirname(os.path.abspath(__file__)))
REPO = os.environ.get("VERIF_REPO", "/repo")
JAR = "/opt/veriftools/tla/tla2tools.jar"
CM_JAR = None
NCPU = int(os.environ.get("VERIF_JOBS", "0") or 0) or (os.cpu_count() or 4)


class Broken(Exception):
    """The check could not run (tool error, build failure...).  Never a VIOLATION."""


def log(*a):
    print("[verif]", *a, file=sys.stderr, flush=True)


# ----------------------------------------------------------------------------- report
class Report:
    def __init__(self, prop, tier, seed):
        self.prop, self.tier, self.seed = prop, tier, seed
        self.mc = []                 # model-checking runs
        self.traces = 0              # executions of the real code validated against a monitor
        self.events = 0
        self.evaluations = 0         # executions of the real code (replays, random schedules)
        self.distinct = set()        # keys of distinct non-trivial cases
        self.rules = []
        self.samples = []
        self.violations = []
        self.known = []
        self.oos = []                # out-of-scope observations (e.g. memory events in C15)
        self.drift = 0
        self.unguided = 0
        self.notes = []
        self.assumptions = []
        self.engines = []
        self.exhaustive = None
        self.t0 = time.time()

    def add_mc(self, d):
        self.mc.append(d)

    def sample(self, x, cap=4):
        if len(self.samples) < cap + 6 and sum(1 for s in self.samples if s.get("kind") == x.get("kind")) < cap:
            self.samples.append(x)

    def rule(self, s):
        if s not in self.rules:
            self.rules.append(s)

    def assume(self, s):
        if s not in self.assumptions:
            self.assumptions.append(s)

    def note(self, s):
        self.notes.append(s)

    def violation(self, rec):
        """rec: dict with at least engine, event, what (+ fields used by known_findings match)."""
        rec = dict(rec)
        rec.setdefault("property", self.prop)
        self.violations.append(rec)


def load_known():
    p = os.path.join(VERIF, "known_findings.json")
    out = json.load(open(p)) if os.path.exists(p) else []
    for extra in filter(None, os.environ.get("VERIF_KNOWN_EXTRA", "").split(":")):
        out += json.load(open(extra))     # development aid only (proposed findings of an engine under construction)
    return out


def _match_field(want, got):
    if isinstance(want, list) and len(want) == 2 and all(isinstance(x, (int, float)) for x in want):
        return isinstance(got, (int, float)) and want[0] <= got <= want[1]
    if isinstance(want, dict) and "re" in want:
        return isinstance(got, str) and re.search(want["re"], got) is not None
    if isinstance(want, dict) and "in" in want:
        return got in want["in"]
    if isinstance(want, dict) and "contains" in want:
        return isinstance(got, (list, tuple, str)) and want["contains"] in got
    return want == got


def known_match(rec, known):
    for k in known:
        if k.get("status") != "known" or k.get("property") != rec.get("property"):
            continue
        m = k.get("match") or {}
        if not m:
            continue   # never match on the property id alone
        if all(f in rec and _match_field(w, rec[f]) for f, w in m.items()):
            return k
    return None


# ----------------------------------------------------------------------------- TLC
def _java():
    return shutil.which("java") or "java"


def _cp():
    cp = [JAR]
    d = os.path.dirname(JAR)
    for f in sorted(os.listdir(d)):
        if f.endswith(".jar") and os.path.join(d, f) != JAR:
            cp.append(os.path.join(d, f))
    return ":".join(cp)


_TLC_WRAPPER_CP = None


def _tlc_classpath():
    """Find the classpath the `tlc` wrapper uses (CommunityModules included)."""
    global _TLC_WRAPPER_CP
    if _TLC_WRAPPER_CP:
        return _TLC_WRAPPER_CP
    cp = _cp()
    w = shutil.which("tlc")
    if w:
        try:
            txt = open(w).read()
            m = re.search(r"-cp\s+\"?([^\s\"]+)", txt)
            if m and "tla2tools" in m.group(1):
                cp = m.group(1)
        except Exception:
            pass
    _TLC_WRAPPER_CP = cp
    return cp


def tlc(workdir, spec_dir, module, cfg=None, workers=None, env=None, timeout=900, simulate=None,
        depth=None, xmx="6g", dfs_queue=False, deadlock=None, extra=(), coverage=False, seed=None):
    """Run TLC.  Returns dict(ok, kind, violated, generated, distinct, left, out, secs, rc).
    kind: 'ok' | 'invariant' | 'deadlock' | 'liveness' | 'assert' | 'error' | 'timeout'."""
    os.makedirs(workdir, exist_ok=True)
    meta = tempfile.mkdtemp(prefix="meta_", dir=workdir)
    cfg = cfg or (module + ".cfg")
    jopts = ["-Xmx" + xmx, "-XX:+UseParallelGC", "-DTLA-Library=" + os.path.join(VERIF, "spec", "common")]
    if dfs_queue:
        jopts.append("-Dtlc2.tool.queue.IStateQueue=StateDeque")
    cmd = [_java()] + jopts + ["-cp", _tlc_classpath(), "tlc2.TLC", "-metadir", meta, "-noGenerateSpecTE",
                               "-config", cfg]
    if workers is None:
        workers = os.environ.get("VERIF_JOBS") or "auto"
    cmd += ["-workers", str(workers)]
    if simulate is not None:
        cmd += ["-simulate", "num=%d" % simulate]
        if depth:
            cmd += ["-depth", str(depth)]
        if seed is not None:
            cmd += ["-seed", str(seed)]
    if deadlock is False:
        cmd += ["-deadlock"]     # -deadlock disables deadlock checking
    if coverage:
        cmd += ["-coverage", "1"]
    cmd += list(extra) + [module + ".tla"]
    e = dict(os.environ)
    e.pop("JAVA_TOOL_OPTIONS", None)
    if env:
        e.update({k: str(v) for k, v in env.items()})
    t0 = time.time()
    try:
        p = subprocess.run(cmd, cwd=spec_dir, env=e, stdout=subprocess.PIPE, stderr=subprocess.STDOUT,
                           timeout=timeout, text=True, errors="replace")
        out, rc = p.stdout, p.returncode
    except subprocess.TimeoutExpired as ex:
        out = (ex.stdout or b"").decode("utf8", "replace") if isinstance(ex.stdout, bytes) else (ex.stdout or "")
        rc = -9
    secs = time.time() - t0
    shutil.rmtree(meta, ignore_errors=True)
    r = dict(rc=rc, out=out, secs=round(secs, 2), module=module, cfg=cfg, generated=0, distinct=0, left=0,
             violated=None)
    m = None
    for m in re.finditer(r"(\d+) states generated, (\d+) distinct states found, (\d+) states left on queue", out):
        pass
    if m:
        r["generated"], r["distinct"], r["left"] = int(m.group(1)), int(m.group(2)), int(m.group(3))
    if rc == -9:
        r["kind"] = "timeout"
    elif "Invariant " in out and " is violated" in out:
        r["kind"] = "invariant"
        mm = re.search(r"Invariant (\S+) is violated", out)
        r["violated"] = mm.group(1) if mm else "?"
    elif "Deadlock reached" in out:
        r["kind"] = "deadlock"
    elif "Temporal properties were violated" in out:
        r["kind"] = "liveness"
    elif re.search(r"Action property \S+ is violated|action property .* violated", out, re.I):
        r["kind"] = "invariant"
        mm = re.search(r"Action property (\S+) is violated", out)
        r["violated"] = mm.group(1) if mm else "action-property"
    elif "The first argument of Assert evaluated to FALSE" in out:
        r["kind"] = "assert"
    elif rc == 0 and ("No error has been found" in out or simulate is not None):
        r["kind"] = "ok"
    elif rc == 0:
        r["kind"] = "ok"
    else:
        r["kind"] = "error"
    r["ok"] = r["kind"] == "ok"
    return r


def tlc_counterexample(out, maxlines=120):
    """Extract the error trace part of a TLC output."""
    i = out.find("Error:")
    return "\n".join(out[i:].splitlines()[:maxlines]) if i >= 0 else ""


def model_check(ctx, area, module, cfg=None, env=None, must_hold=True, **kw):
    """Model-check spec/<area>/<module> and record it in the report.  A violation of the spec's own
    invariants on the unchanged transcription is a *broken model* unless the engine handles it."""
    spec_dir = os.path.join(VERIF, "spec", area)
    r = tlc(os.path.join(ctx.work, "tlc"), spec_dir, module, cfg=cfg, env=env, **kw)
    ctx.rep.add_mc(dict(module="%s/%s" % (area, module), cfg=r["cfg"], states=r["distinct"],
                        transitions=r["generated"], result=r["kind"], violated=r["violated"], secs=r["secs"]))
    if r["kind"] in ("error", "timeout", "assert") and must_hold:
        raise Broken("TLC %s on %s/%s (%s):\n%s" % (r["kind"], area, module, r["cfg"], r["out"][-3000:]))
    if must_hold and not r["ok"]:
        raise Broken("model %s/%s (%s) violates %s on the transcription of the unchanged design:\n%s"
                     % (area, module, r["cfg"], r["violated"] or r["kind"], tlc_counterexample(r["out"])))
    return r


# ----------------------------------------------------------------------------- trace validation
def validate_trace(ctx, area, module, trace_path, cfg=None, env=None, timeout=900, xmx="6g"):
    """Validate an ndjson log against the monitor spec/<area>/<module> (EXTENDS TraceIO; CONSTRAINT Track;
    POSTCONDITION Report).  Returns dict(accepted, prefix, total, out)."""
    spec_dir = os.path.join(VERIF, "spec", area)
    e = {"TRACEFILE": trace_path}
    if env:
        e.update(env)
    r = tlc(os.path.join(ctx.work, "tlc"), spec_dir, module, cfg=cfg, env=e, workers=1, timeout=timeout,
            deadlock=False, xmx=xmx, dfs_queue=True)
    out = r["out"]
    res = dict(out=out, secs=r["secs"], states=r["distinct"])
    m = re.search(r'"trace-validation accepted", (TRUE|FALSE), "prefix", (\d+), "of", (\d+)', out)
    if not m or r["kind"] not in ("ok",):
        raise Broken("trace validation %s/%s failed to run (%s):\n%s" % (area, module, r["kind"], out[-3000:]))
    res["accepted"] = m.group(1) == "TRUE"
    res["prefix"], res["total"] = int(m.group(2)), int(m.group(3))
    return res


def split_executions(trace_path):
    """Split an ndjson log at Reset events -> list of (exec id, [lines])."""
    execs, cur, cid = [], [], None
    for ln in open(trace_path, errors="replace"):
        if not ln.strip():
            continue
        if '"e":"Aborted"' in ln:
            cur, cid = [], None          # the process died in this execution: not a complete trace
            continue
        if not ln.endswith("\n") or not ln.startswith("{"):
            continue
        if '"e":"Reset"' in ln:
            if cur:
                execs.append((cid, cur))
            cur = [ln]
            try:
                cid = json.loads(ln).get("x")
            except Exception:
                cid = None
        else:
            cur.append(ln)
    if cur:
        execs.append((cid, cur))
    return execs


def validate_batched(ctx, area, module, trace_path, cfg=None, env=None, max_reports=5, label=None,
                     chunk_events=150000, skip_x=()):
    """Validate a concatenated log; on rejection locate the offending executions by bisection over
    Reset-delimited executions.  Returns (n_validated, [rejected]) where rejected items are
    dict(x, events, confirmed).  A rejection is reported only if it repeats when re-run in isolation."""
    execs = split_executions(trace_path)
    if skip_x:
        skip_x = set(skip_x)
        execs = [e for e in execs if e[0] not in skip_x]     # executions tainted by a sanitizer report
    if not execs:
        return 0, []
    rejected = []
    tmpd = tempfile.mkdtemp(prefix="val_", dir=ctx.work)

    def run(sub, tag):
        p = os.path.join(tmpd, "t_%s.ndjson" % tag)
        with open(p, "w") as f:
            for _, lines in sub:
                f.writelines(lines)
        return validate_trace(ctx, area, module, p, cfg=cfg, env=env)

    # chunk to keep each TLC run bounded
    chunks, cur, n = [], [], 0
    for ex in execs:
        cur.append(ex)
        n += len(ex[1])
        if n >= chunk_events:
            chunks.append(cur)
            cur, n = [], 0
    if cur:
        chunks.append(cur)
    counter = [0]
    first_rej = [None]

    def search(sub):
        if len(rejected) >= max_reports:
            return
        if first_rej[0] is not None and time.time() - first_rej[0] > 90:
            return        # one confirmed rejection decides the check; do not spend minutes listing all of them
        counter[0] += 1
        r = run(sub, str(counter[0]))
        ctx.rep.events += 0
        if r["accepted"]:
            return
        if len(sub) == 1:
            counter[0] += 1
            r2 = run(sub, str(counter[0]) + "r")     # re-run once
            if not r2["accepted"]:
                evs = [json.loads(x) for x in sub[0][1]]
                rejected.append(dict(x=sub[0][0], events=evs, prefix=r2.get("prefix"), total=r2.get("total"),
                                     tail=r2["out"][-1500:]))
                if first_rej[0] is None:
                    first_rej[0] = time.time()
            return
        # the prefix tells us which execution failed first
        pref = r.get("prefix")
        if pref is not None:
            acc, k = 0, 0
            for k, (_, lines) in enumerate(sub):
                if acc + len(lines) > pref:
                    break
                acc += len(lines)
            search([sub[k]])
            rest = sub[k + 1:]
            if rest:
                search(rest)
        else:
            mid = len(sub) // 2
            search(sub[:mid])
            search(sub[mid:])

    for ch in chunks:
        search(ch)
    shutil.rmtree(tmpd, ignore_errors=True)
    nval = len(execs)
    ctx.rep.traces += nval
    ctx.rep.events += sum(len(l) for _, l in execs)
    return nval, rejected


# ----------------------------------------------------------------------------- C++ builds
_tree_hash_cache = {}


def tree_hash(paths):
    key = tuple(paths)
    if key in _tree_hash_cache:
        return _tree_hash_cache[key]
    h = hashlib.sha1()
    for root in paths:
        if os.path.isfile(root):
            h.update(root.encode()); h.update(open(root, "rb").read())
            continue
        for dp, dn, fn in sorted(os.walk(root)):
            dn.sort()
            for f in sorted(fn):
                p = os.path.join(dp, f)
                h.update(p.encode())
                try:
                    h.update(open(p, "rb").read())
                except OSError:
                    pass
    _tree_hash_cache[key] = h.hexdigest()
    return _tree_hash_cache[key]


LIB_ALL = ["inplace_stop_token.cpp", "manual_event_loop.cpp", "async_stack.cpp", "exception.cpp",
           "static_thread_pool.cpp", "thread_unsafe_event_loop.cpp", "timed_single_thread_context.cpp",
           "trampoline_scheduler.cpp", "async_mutex_v1.cpp", "async_mutex_v2.cpp", "atomic_intrusive_list.cpp",
           "async_manual_reset_event_v1.cpp", "async_manual_reset_event_v2.cpp", "async_auto_reset_event.cpp"]
LIB_CXX20 = ["async_pass.cpp", "task.cpp"]
LIB_LINUX = ["linux/io_epoll_context.cpp", "linux/io_uring_context.cpp", "linux/io_uring_syscall.cpp",
             "linux/mmap_region.cpp", "linux/monotonic_clock.cpp", "linux/safe_file_descriptor.cpp"]


def build(ctx, name, srcs, lib=("inplace_stop_token.cpp", "async_stack.cpp", "exception.cpp"), std="c++17",
          opt="-O1", san="address,undefined", defs=(), extra=(), cxx="g++", libs=("-lpthread",), incs=(), recover=False):
    """Compile harness sources + selected library .cpp files from ctx.repo (current working tree),
    with -DUNIFEX_VERIF=1.  Cached by content hash.  Returns path of the executable."""
    repo = ctx.repo
    srcs = [s if os.path.isabs(s) else os.path.join(VERIF, s) for s in srcs]
    libsrcs = [os.path.join(repo, "source", l) for l in lib]
    flags = ["-std=" + std, opt, "-g1", "-fno-omit-frame-pointer", "-DUNIFEX_VERIF=1", "-w",
             "-I" + os.path.join(repo, "include"), "-I" + os.path.join(repo, "source"),
             "-I" + os.path.join(VERIF, "rt")] + ["-I" + i for i in incs]
    if std in ("c++20", "c++2a") and cxx.startswith("g++"):
        flags.append("-fcoroutines")
    if san:
        flags += ["-fsanitize=" + san, "-fno-sanitize-recover=undefined"]
        if recover:
            flags += ["-fsanitize-recover=address"]   # ASan reports do not end the process (run with halt_on_error=0)
    flags += ["-D" + d for d in defs] + list(extra)
    th = tree_hash([os.path.join(repo, "include"), os.path.join(repo, "source"), os.path.join(VERIF, "rt")] + list(incs))
    h = hashlib.sha1(("|".join([cxx] + flags + list(libs)) + th).encode())
    for s in srcs:
        h.update(os.path.basename(s).encode()); h.update(open(s, "rb").read())
    for l in lib:
        h.update(l.encode())
    key = h.hexdigest()[:20]
    bdir = os.path.join(VERIF, "_build", key)
    exe = os.path.join(bdir, name)
    if os.path.exists(exe):
        return exe
    final_exe = exe
    bdir = bdir + ".tmp%d" % os.getpid()      # private build directory: concurrent checks may build the same key
    exe = os.path.join(bdir, name)
    shutil.rmtree(bdir, ignore_errors=True)
    os.makedirs(bdir, exist_ok=True)
    cc = [shutil.which("ccache")] if shutil.which("ccache") else []
    objs, procs = [], []
    t0 = time.time()
    for i, s in enumerate(srcs + libsrcs):
        o = os.path.join(bdir, "o%d_%s.o" % (i, os.path.basename(s).replace(".cpp", "")))
        objs.append(o)
        procs.append((s, subprocess.Popen(cc + [cxx] + flags + ["-c", s, "-o", o], stdout=subprocess.PIPE,
                                          stderr=subprocess.STDOUT, text=True)))
        while sum(1 for _, p in procs if p.poll() is None) >= NCPU:
            time.sleep(0.05)
    errs = []
    for s, p in procs:
        out, _ = p.communicate()
        if p.returncode != 0:
            errs.append("%s:\n%s" % (s, out[-4000:]))
    if errs:
        shutil.rmtree(bdir, ignore_errors=True)
        raise Broken("harness build failed (%s):\n%s" % (name, "\n".join(errs)))
    lk = [cxx] + (["-fsanitize=" + san] if san else []) + objs + ["-o", exe + ".tmp"] + list(libs)
    p = subprocess.run(lk, stdout=subprocess.PIPE, stderr=subprocess.STDOUT, text=True)
    if p.returncode != 0:
        shutil.rmtree(bdir, ignore_errors=True)
        raise Broken("harness link failed (%s):\n%s" % (name, p.stdout[-4000:]))
    os.makedirs(os.path.dirname(final_exe), exist_ok=True)
    os.rename(exe + ".tmp", final_exe)
    shutil.rmtree(bdir, ignore_errors=True)
    log("built %s in %.1fs" % (name, time.time() - t0))
    return final_exe


def build_many(ctx, jobs):
    """jobs: list of kwargs for build(); builds sequentially (each is internally parallel)."""
    return [build(ctx, **j) for j in jobs]


SAN_ENV = {
    "ASAN_OPTIONS": "detect_leaks=0:abort_on_error=0:exitcode=71:allocator_may_return_null=1:"
                    "detect_stack_use_after_return=0:handle_segv=1:print_summary=1",
    "UBSAN_OPTIONS": "print_stacktrace=1:halt_on_error=1:exitcode=72",
}


def run_exe(exe, args, timeout=600, env=None, cwd=None, stdin=None):
    e = dict(os.environ)
    e.update(SAN_ENV)
    if env:
        e.update({k: str(v) for k, v in env.items()})
    try:
        p = subprocess.run([exe] + [str(a) for a in args], stdout=subprocess.PIPE, stderr=subprocess.PIPE,
                           timeout=timeout, env=e, cwd=cwd, text=True, errors="replace", input=stdin)
        return p.returncode, p.stdout, p.stderr
    except subprocess.TimeoutExpired as ex:
        so = ex.stdout.decode("utf8", "replace") if isinstance(ex.stdout, bytes) else (ex.stdout or "")
        se = ex.stderr.decode("utf8", "replace") if isinstance(ex.stderr, bytes) else (ex.stderr or "")
        return -9, so, se


def classify_death(rc, stderr):
    """Map an abnormal harness exit to a memory/crash event record (or None if normal)."""
    if rc == 0:
        return None
    ev = dict(rc=rc)
    m = re.search(r"ERROR: AddressSanitizer: ([\w-]+)", stderr)
    if m:
        ev["event"] = "AsanReport"
        ev["asan"] = m.group(1)
        fr = re.findall(r"#\d+ 0x[0-9a-f]+ in (.+?) (/\S+?):(\d+)", stderr)
        frames = [("%s %s:%s" % (f[0][:120], f[1].split("/include/")[-1].split("/source/")[-1], f[2])) for f in fr[:12]]
        ev["frames"] = frames
        lib = [f for f in fr if "/unifex/" in f[1] or "/source/" in f[1]]
        ev["frame"] = (lib[0][0][:160] if lib else (fr[0][0][:160] if fr else ""))
        ev["where"] = ("%s:%s" % (lib[0][1].split("/include/")[-1].split("/repo/")[-1], lib[0][2]) if lib else "")
        ev["access"] = "READ" if re.search(r"\bREAD of size", stderr) else ("WRITE" if re.search(r"\bWRITE of size", stderr) else "")
    elif "runtime error:" in stderr:
        ev["event"] = "UbsanReport"
        m = re.search(r"(\S+:\d+):\d+: runtime error: (.*)", stderr)
        ev["where"] = m.group(1).split("/include/")[-1] if m else ""
        ev["frame"] = m.group(2)[:160] if m else ""
    elif rc == -9:
        ev["event"] = "Hang"
    elif rc == 73:
        ev["event"] = "Terminate"
    elif rc == 74:
        ev["event"] = "Crash"
    elif rc == 75:
        ev["event"] = "Deadlock"
    elif rc == 76:
        ev["event"] = "Hang"
    elif rc < 0:
        ev["event"] = "Crash"
        ev["signal"] = -rc
    else:
        ev["event"] = "Exit"
    ev["stderr_tail"] = stderr[-1800:]
    return ev


def split_reports(stderr):
    """Recoverable-ASan mode: the driver prints `@@X <unit>` to stderr at the start of every unit; returns
    [(unit, report text)] for every sanitizer report found."""
    out, cur, buf = [], None, []
    def flush():
        if buf and cur is not None:
            txt = "".join(buf)
            for part in re.split(r"(?==+\d+==ERROR: AddressSanitizer)", txt):
                if "ERROR: AddressSanitizer" in part:
                    out.append((cur, part))
    for ln in stderr.splitlines(True):
        m = re.match(r"@@X (\d+)", ln)
        if m:
            flush()
            cur, buf = int(m.group(1)), []
        else:
            buf.append(ln)
    flush()
    return out


def run_batches(ctx, exe, args, total, log_path, timeout=900, per_exec_timeout=None, env=None, max_deaths=300, recover=False):
    """Run executions [0,total) of a driver that accepts `--from K --to N --log FILE` (appending) and prints
    a final JSON summary line on stdout.  If the process dies in execution x (found from the last Reset line of
    the log) the death is recorded and the run resumes at x+1.
    Returns (summaries, deaths) where deaths = [dict(x=..., **classify_death)]."""
    k, sums, deaths = 0, [], []
    if os.path.exists(log_path):
        os.remove(log_path)
    open(log_path, "w").close()
    if recover:
        env = dict(env or {})
        env["ASAN_OPTIONS"] = SAN_ENV["ASAN_OPTIONS"] + ":halt_on_error=0:suppress_equal_pcs=0"
    while k < total:
        rc, so, se = run_exe(exe, list(args) + ["--from", k, "--to", total, "--log", log_path], timeout=timeout, env=env)
        seen_units = set()
        if recover:
            for unit, txt in split_reports(se):
                if unit in seen_units:
                    continue           # one report per unit is enough; the unit is tainted anyway
                seen_units.add(unit)
                d = classify_death(71, txt)
                d["x"] = unit
                d["recovered"] = True
                deaths.append(d)
            se = re.sub(r"(?s)=+\d+==ERROR: AddressSanitizer.*?(?=@@X |\Z)", "", se) if rc == 0 else se
        summ = None
        for ln in so.splitlines():
            if ln.startswith("{"):
                try:
                    summ = json.loads(ln)
                except Exception:
                    pass
        if summ:
            sums.append(summ)
        d = classify_death(rc, se)
        if d is None:
            break
        if d.get("event") == "Exit" and summ is not None and rc in (1,):
            break   # driver reports mismatches through its summary
        x = last_exec_id(log_path)
        if x is None or x < k:
            x = k
        d["x"] = x
        if d.get("event") == "Hang" and x not in seen_units:
            # a wall-clock verdict: believed only if the unit alone (scratch log) hangs again; a loaded machine or a slow
            # symboliser must never become an alarm
            tmp_log = log_path + ".confirm"
            open(tmp_log, "w").close()
            rc2, so2, se2 = run_exe(exe, list(args) + ["--from", x, "--to", x + 1, "--log", tmp_log], timeout=max(300, timeout // 2), env=env)
            d2 = classify_death(rc2, se2)
            try:
                os.remove(tmp_log)
            except OSError:
                pass
            if d2 is None or (d2.get("event") == "Exit" and rc2 == 1):
                ctx.rep.note("unit %d: wall-clock time-out not reproduced when re-run alone (machine load); unit skipped" % x)
                with open(log_path, "a") as f:
                    f.write('\n{"e":"Aborted","x":%d}\n' % x)
                k = x + 1
                continue
            if d2.get("event") != "Hang":
                d2["x"] = x
                d = d2
            else:
                d["confirmed"] = True
        if x in seen_units:
            # the process went on after a recoverable sanitizer report in this very unit and died later in it:
            # the unit is already tainted and judged by that first report
            d = None
        else:
            deaths.append(d)
        with open(log_path, "a") as f:       # mark the incomplete execution; split_executions() drops it
            f.write('\n{"e":"Aborted","x":%d}\n' % x)
        if len(deaths) >= max_deaths:
            ctx.rep.note("stopped after %d deaths" % len(deaths))
            break
        k = x + 1
    return sums, deaths


def last_exec_id(log_path):
    x = None
    try:
        with open(log_path, "rb") as f:
            f.seek(0, 2)
            size = f.tell()
            back = min(size, 4 << 20)
            f.seek(size - back)
            data = f.read().decode("utf8", "replace")
        for ln in data.splitlines():
            if '"e":"Reset"' in ln:
                try:
                    x = json.loads(ln).get("x", x)
                except Exception:
                    pass
    except OSError:
        pass
    return x


def truncate_after_last_reset(log_path):
    """Drop the (incomplete) last execution from a log."""
    lines = open(log_path, errors="replace").read().splitlines(True)
    idx = None
    for i in range(len(lines) - 1, -1, -1):
        if '"e":"Reset"' in lines[i]:
            idx = i
            break
    if idx is not None:
        with open(log_path, "w") as f:
            f.writelines(lines[:idx])


# ----------------------------------------------------------------------------- edge cover
def read_edges(path):
    adj = collections.defaultdict(list)
    targets = set()
    n = 0
    for l in open(path):
        l = l.strip()
        if not l:
            continue
        e = json.loads(l)
        s, t = tuple(e["s"]), tuple(e["t"])
        adj[s].append((t, e))
        targets.add(t)
        n += 1
    inits = [s for s in adj if s not in targets]
    return adj, inits, n


def edge_cover(adj, inits, max_len=10000, extra_inits=()):
    """Greedy edge-covering set of walks from the initial states (each walk runs to a terminal state).
    Returns list of [edge payload...]."""
    covered = set()
    out = []
    for i in list(inits) + list(extra_inits):
        # BFS tree from i (computed once)
        parent = {i: None}
        order = [i]
        q = collections.deque([i])
        while q:
            u = q.popleft()
            for k, (v, e) in enumerate(adj.get(u, ())):
                if v not in parent:
                    parent[v] = (u, k)
                    order.append(v)
                    q.append(v)
        for u0 in order:
            for k0 in range(len(adj.get(u0, ()))):
                if (u0, k0) in covered:
                    continue
                pre = []
                u = u0
                while parent[u] is not None:
                    pre.append(parent[u])
                    u = parent[u][0]
                pre.reverse()
                walk = pre + [(u0, k0)]
                covered.add((u0, k0))
                u = adj[u0][k0][0]
                while adj.get(u) and len(walk) < max_len:
                    nxt = [k for k in range(len(adj[u])) if (u, k) not in covered]
                    k = nxt[0] if nxt else 0
                    covered.add((u, k))
                    walk.append((u, k))
                    u = adj[u][k][0]
                out.append([adj[a][k][1] for (a, k) in walk])
    return out


def random_walks(adj, inits, n, rng, max_len=10000):
    out = []
    inits = list(inits)
    for _ in range(n):
        u = rng.choice(inits)
        walk = []
        while adj.get(u) and len(walk) < max_len:
            v, e = rng.choice(adj[u])
            walk.append(e)
            u = v
        out.append(walk)
    return out


# ----------------------------------------------------------------------------- evidence
def write_evidence(rep, level="model_checking", extra=None):
    os.makedirs(os.path.join(VERIF, "evidence"), exist_ok=True)
    states = sum(m["states"] for m in rep.mc)
    trans = sum(m["transitions"] for m in rep.mc)
    cov = dict(states=states, transitions=trans, traces_validated_against_impl=rep.traces,
               samples=rep.samples[:10] or [{"kind": "none"}],
               evaluations=rep.evaluations, distinct_nontrivial=len(rep.distinct),
               rule="; ".join(rep.rules), model_checking_runs=rep.mc, events_validated=rep.events,
               drift=rep.drift, unguided=rep.unguided, engines=rep.engines,
               known_findings_seen=[k.get("what", "") for k in rep.known],
               out_of_scope_observations=rep.oos[:20], notes=rep.notes[:40])
    if rep.exhaustive is not None:
        cov["exhaustive"] = bool(rep.exhaustive)
    if extra:
        cov.update(extra)
    ev = dict(property_id=rep.prop, tier=rep.tier, seed=int(rep.seed), level=level, coverage=cov,
              assumptions=rep.assumptions, wall_s=round(time.time() - rep.t0, 1),
              violations=len(rep.violations))
    p = os.path.join(VERIF, "evidence", rep.prop + ".json")
    with open(p + ".tmp", "w") as f:
        json.dump(ev, f, indent=1, default=str)
    os.rename(p + ".tmp", p)
    return p


class Ctx:
    def __init__(self, prop, tier, seed, replay=None, params=None):
        self.prop, self.tier, self.seed, self.replay = prop, tier, seed, replay
        self.repo = REPO
        self.rep = Report(prop, tier, seed)
        self.work = tempfile.mkdtemp(prefix="verif_%s_" % prop, dir=os.environ.get("VERIF_TMP", "/var/tmp"))
        self.rng = random.Random(seed)
        self.params = params or {}

    @property
    def quick(self):
        return self.tier == "quick"

    def cleanup(self):
        shutil.rmtree(self.work, ignore_errors=True)
