// Harness runtime shared by all conformance drivers (DESIGN.md 3.3).
//  * event log (ndjson, one line per API-level event)
//  * token-passing thread controller driven by UNIFEX_VERIF_YIELD/SPIN schedule points
//  * schedule strategies: guided (TLC behaviour), seeded random, bounded-preemption DFS
//  * crash / terminate / sanitizer-death handlers that flush the log
// Header-only; include from exactly one translation unit per executable.
#pragma once
#include <unifex/detail/verif_hooks.hpp>

#include <semaphore.h>
#include <signal.h>
#include <time.h>
#include <unistd.h>

#include <atomic>
#include <cstdarg>
#include <cstdio>
#include <cstdlib>
#include <cstring>
#include <exception>
#include <functional>
#include <map>
#include <memory>
#include <random>
#include <string>
#include <thread>
#include <vector>

#if defined(__SANITIZE_ADDRESS__)
#define VRT_ASAN 1
#elif defined(__has_feature)
#if __has_feature(address_sanitizer)
#define VRT_ASAN 1
#endif
#endif
#ifdef VRT_ASAN
extern "C" void __sanitizer_set_death_callback(void (*)(void));
#endif

namespace vrt {

// ------------------------------------------------------------------ event log
struct LogState {
  FILE* f = nullptr;
  std::atomic_flag lk = ATOMIC_FLAG_INIT;
  long lines = 0;
};
inline LogState g_log;

inline void log_open(const char* path, bool append = true) {
  g_log.f = std::fopen(path, append ? "a" : "w");
  if (g_log.f) std::setvbuf(g_log.f, nullptr, _IOFBF, 1 << 20);
}
inline void log_flush() noexcept {
  if (g_log.f) std::fflush(g_log.f);
}
inline void log_close() {
  if (g_log.f) { std::fclose(g_log.f); g_log.f = nullptr; }
}
// printf-style; the format is the complete JSON object text
inline void ev(const char* fmt, ...) noexcept {
  if (!g_log.f) return;
  while (g_log.lk.test_and_set(std::memory_order_acquire)) {}
  va_list ap; va_start(ap, fmt);
  std::vfprintf(g_log.f, fmt, ap);
  va_end(ap);
  std::fputc('\n', g_log.f);
  ++g_log.lines;
  g_log.lk.clear(std::memory_order_release);
}

// ------------------------------------------------------------------ death handlers
inline void die(const char* what, int code) noexcept {
  if (g_log.f) { std::fprintf(g_log.f, "{\"e\":\"%s\"}\n", what); std::fflush(g_log.f); }
  std::fprintf(stderr, "vrt: %s\n", what);
  _exit(code);
}
inline void on_signal(int sig) {
  if (g_log.f) { std::fprintf(g_log.f, "{\"e\":\"Crash\",\"sig\":%d}\n", sig); std::fflush(g_log.f); }
  _exit(sig == SIGABRT ? 73 : 74);
}
inline void install_handlers() {
  std::set_terminate([] { die("Terminate", 73); });
#ifdef VRT_ASAN
  __sanitizer_set_death_callback([] { log_flush(); });
  signal(SIGABRT, on_signal);
#else
  for (int s : {SIGSEGV, SIGBUS, SIGFPE, SIGILL, SIGABRT}) signal(s, on_signal);
#endif
}

// ------------------------------------------------------------------ controller
struct Thr {
  int id = 0;
  sem_t go;
  std::atomic<int> st{0};   // 0 running, 1 parked, 2 finished
  const char* site = "";
  int kind = 0;             // 0 yield, 1 spin
  unsigned long parkedAt = 0;
  unsigned long lastStep = 0;
  unsigned long lastProgress = 0;   // last step of this thread that was not a spin -> spin re-check
  std::thread th;
};
inline thread_local Thr* tl_self = nullptr;
inline int self_id() { return tl_self ? tl_self->id : 0; }

inline int default_hang_secs() { const char* e = std::getenv("VERIF_HANG_SECS"); int v = e ? std::atoi(e) : 0; return v > 0 ? v : 60; }
struct Ctl;
inline Ctl* g_ctl = nullptr;

struct Ctl {
  sem_t back;
  std::map<int, std::unique_ptr<Thr>> thr;
  unsigned long stepNo = 0;
  int hang_secs = default_hang_secs();
  // schedule points whose site name does not start with one of these prefixes are ignored (other engines' hooks);
  // empty = accept all.  "begin" is always accepted.
  std::vector<std::string> accept;
  std::map<const char*, bool> acceptCache;
  bool accepted(const char* site) {
    if (accept.empty()) return true;
    auto it = acceptCache.find(site);
    if (it != acceptCache.end()) return it->second;
    bool ok = std::strcmp(site, "begin") == 0;
    for (auto& p : accept) if (std::strncmp(site, p.c_str(), p.size()) == 0) ok = true;
    acceptCache[site] = ok;
    return ok;
  }

  Ctl() {
    sem_init(&back, 0, 0);
    g_ctl = this;
    ::unifex_verif::hook.store(&Ctl::hook, std::memory_order_release);
  }
  ~Ctl() {
    ::unifex_verif::hook.store(nullptr, std::memory_order_release);
    g_ctl = nullptr;
    sem_destroy(&back);
  }
  static void wait_sem(sem_t* s) noexcept {
    while (sem_wait(s) != 0) {}
  }
  void wait_back() noexcept {
    timespec ts; clock_gettime(CLOCK_REALTIME, &ts); ts.tv_sec += hang_secs;
    while (true) {
      int r = sem_timedwait(&back, &ts);
      if (r == 0) return;
      if (errno == EINTR) continue;
      die("Hang", 76);
    }
  }
  static void hook(const char* site, int kind, const void*) noexcept {
    Thr* t = tl_self;
    Ctl* c = g_ctl;
    if (!t || !c) return;
    if (!c->accepted(site)) return;   // only the token holder runs, so the cache needs no lock
    t->site = site; t->kind = kind; t->parkedAt = c->stepNo;
    t->st.store(1, std::memory_order_release);
    sem_post(&c->back);
    wait_sem(&t->go);
  }
  // create a controlled thread; it parks at "begin" before running fn
  void spawn(int id, std::function<void()> fn) {
    auto u = std::make_unique<Thr>();
    Thr* p = u.get(); p->id = id; sem_init(&p->go, 0, 0);
    thr[id] = std::move(u);
    p->th = std::thread([this, p, fn] {
      tl_self = p;
      hook("begin", 0, nullptr);
      fn();
      p->site = "finished";
      p->st.store(2, std::memory_order_release);
      tl_self = nullptr;
      sem_post(&back);
    });
    wait_back();
  }
  bool finished(int t) { return thr[t]->st.load(std::memory_order_acquire) == 2; }
  const char* site(int t) { return finished(t) ? "finished" : thr[t]->site; }
  bool spinning(int t) { return !finished(t) && thr[t]->kind == 1; }
  bool enabled(int t) {
    Thr* p = thr[t].get();
    if (p->st.load(std::memory_order_acquire) != 1) return false;
    if (p->kind != 1) return true;
    // a spinner is worth re-running only after some other thread made progress (a step that was not itself a
    // fruitless spin re-check); otherwise two spinners would wake each other forever
    for (auto& [id, u] : thr) if (id != t && u->lastProgress > p->parkedAt) return true;
    return false;
  }
  std::vector<int> enabled_set() {
    std::vector<int> v;
    for (auto& [id, u] : thr) if (enabled(id)) v.push_back(id);
    return v;
  }
  bool all_finished() {
    for (auto& [id, u] : thr) if (u->st.load() != 2) return false;
    return true;
  }
  // resume t until it parks again or finishes
  bool step(int t) {
    Thr* p = thr[t].get();
    if (p->st.load(std::memory_order_acquire) != 1) return false;
    ++stepNo; p->lastStep = stepNo;
    bool wasSpin = p->kind == 1;
    p->st.store(0, std::memory_order_release);
    sem_post(&p->go);
    wait_back();
    bool nowSpin = p->st.load(std::memory_order_acquire) == 1 && p->kind == 1;
    if (!(wasSpin && nowSpin)) p->lastProgress = stepNo;
    return true;
  }
  void start_all() { for (auto& [id, u] : thr) step(id); }
  void join() {
    for (auto& [id, u] : thr) { if (u->th.joinable()) u->th.join(); sem_destroy(&u->go); }
  }
};

// ------------------------------------------------------------------ schedules
struct StepRec { int t; std::string site; };

// Bounded-preemption depth-first enumeration of schedules (CHESS style, stateless).
struct Dfs {
  struct Choice { std::vector<int> en; size_t idx; };
  std::vector<Choice> stack;
  int bound = 2;
  bool done = false;
  long executions = 0;
  // per-execution
  size_t pos = 0; int last = -1; int preempt = 0;
  void begin() { pos = 0; last = -1; preempt = 0; }
  int pick(std::vector<int> en, bool lastEnabled) {
    if (pos < stack.size()) {
      Choice& c = stack[pos++];
      int t = c.en[c.idx < c.en.size() ? c.idx : 0];
      if (last >= 0 && t != last && lastEnabled) ++preempt;
      last = t;
      return t;
    }
    // order: continue the running thread first
    std::vector<int> ord;
    if (lastEnabled) ord.push_back(last);
    if (!(lastEnabled && preempt >= bound))
      for (int t : en) if (!(lastEnabled && t == last)) ord.push_back(t);
    stack.push_back({ord, 0}); ++pos;
    int t = ord[0];
    last = t;
    return t;
  }
  // returns false when the space is exhausted
  bool advance() {
    ++executions;
    while (!stack.empty()) {
      if (++stack.back().idx < stack.back().en.size()) return true;
      stack.pop_back();
    }
    done = true;
    return false;
  }
};

struct RunResult {
  std::vector<StepRec> steps;
  bool deadlock = false;
  long unguided = 0;
  long drift = 0;       // guided: thread not at the predicted site
  std::string firstDrift;
};

// Drive all threads of `c` to completion with a chooser: int(const std::vector<int>& enabled, int last)
template <class Choose>
RunResult run_all(Ctl& c, Choose&& choose, long maxSteps = 200000) {
  RunResult r; int last = -1;
  while ((long)r.steps.size() < maxSteps) {
    auto en = c.enabled_set();
    if (en.empty()) break;
    int t = choose(en, last);
    r.steps.push_back({t, c.site(t)});
    c.step(t); last = t;
  }
  r.deadlock = !c.all_finished();
  return r;
}

inline RunResult run_random(Ctl& c, std::mt19937& rng, int stickiness = 50) {
  return run_all(c, [&](const std::vector<int>& en, int last) {
    if (last >= 0 && (int)(rng() % 100) < stickiness)
      for (int t : en) if (t == last) return t;
    return en[rng() % en.size()];
  });
}

inline RunResult run_dfs(Ctl& c, Dfs& d) {
  d.begin();
  return run_all(c, [&](const std::vector<int>& en, int last) {
    bool le = false; for (int t : en) if (t == last) le = true;
    return d.pick(en, le);
  });
}

// guided: sched = list of (thread, expected site); falls back to lowest enabled thread
inline RunResult run_guided(Ctl& c, const std::vector<StepRec>& sched,
                            const std::function<bool(const std::string& want, const std::string& got)>& same) {
  RunResult r;
  for (auto& s : sched) {
    std::string got = c.site(s.t);
    if (!same(s.site, got)) { if (!r.drift) r.firstDrift = "thread " + std::to_string(s.t) + " at '" + got + "' expected '" + s.site + "'"; ++r.drift; }
    r.steps.push_back({s.t, got});
    if (!c.enabled(s.t) || !c.step(s.t)) {
      ++r.unguided;
    }
  }
  // finish whatever is left
  auto rest = run_all(c, [&](const std::vector<int>& en, int) { return en[0]; });
  r.unguided += (long)rest.steps.size();
  for (auto& s : rest.steps) r.steps.push_back(s);
  r.deadlock = rest.deadlock;
  return r;
}

inline std::string sched_json(const RunResult& r) {
  std::string s = "[";
  for (size_t i = 0; i < r.steps.size(); ++i) { if (i) s += ","; s += std::to_string(r.steps[i].t); }
  return s + "]";
}

// ------------------------------------------------------------------ tiny argv helper
struct Args {
  std::map<std::string, std::string> kv;
  Args(int argc, char** argv) {
    for (int i = 1; i < argc; ++i) {
      std::string a = argv[i];
      if (a.rfind("--", 0) == 0) { if (i + 1 < argc && std::string(argv[i + 1]).rfind("--", 0) != 0) { kv[a.substr(2)] = argv[i + 1]; ++i; } else kv[a.substr(2)] = "1"; }
    }
  }
  std::string str(const std::string& k, const std::string& d = "") const { auto it = kv.find(k); return it == kv.end() ? d : it->second; }
  long num(const std::string& k, long d = 0) const { auto it = kv.find(k); return it == kv.end() ? d : std::stol(it->second); }
  bool has(const std::string& k) const { return kv.count(k) != 0; }
};

}  // namespace vrt
